// mutgen: writes single-edit mutants of a Go source file, one file per
// mutant, for the mutation sweep (tools/mutsweep.sh). Operators:
//   rel   relational operator replaced by its boundary neighbour / negation
//   log   && <-> ||
//   arith + <-> -
//   const integer literal k -> k+1, k-1 (small k), 0 <-> 1
//   bool  true <-> false
//   neg   if cond -> if !(cond)
//   del   delete an assignment / inc-dec / expression statement
//   swap  swap two adjacent call arguments with identical source type hints (same kind of literal/ident)
//   ret   return true <-> return false
// usage: mutgen <file.go> <outdir>   (prints one line per mutant: id, line, operator, description)
package main

import (
	"bytes"
	"fmt"
	"go/ast"
	"go/parser"
	"go/printer"
	"go/token"
	"os"
	"path/filepath"
	"strconv"
)

type mut struct {
	apply func() func() // applies the edit, returns undo
	line  int
	op    string
	desc  string
}

func main() {
	src := os.Args[1]
	out := os.Args[2]
	fset := token.NewFileSet()
	f, err := parser.ParseFile(fset, src, nil, parser.ParseComments)
	if err != nil {
		panic(err)
	}
	var muts []mut
	add := func(pos token.Pos, op, desc string, apply func() func()) {
		muts = append(muts, mut{apply, fset.Position(pos).Line, op, desc})
	}
	relAlt := map[token.Token][]token.Token{
		token.LSS: {token.LEQ, token.GEQ}, token.LEQ: {token.LSS, token.GTR}, token.GTR: {token.GEQ, token.LEQ}, token.GEQ: {token.GTR, token.LSS},
		token.EQL: {token.NEQ}, token.NEQ: {token.EQL},
	}
	var visitBlock func(list *[]ast.Stmt)
	visitBlock = func(list *[]ast.Stmt) {
		for i := range *list {
			i := i
			switch st := (*list)[i].(type) {
			case *ast.AssignStmt, *ast.IncDecStmt, *ast.ExprStmt:
				if as, ok := st.(*ast.AssignStmt); ok && as.Tok == token.DEFINE {
					continue // deleting a definition does not compile
				}
				add(st.Pos(), "del", "statement deleted", func() func() {
					old := (*list)[i]
					(*list)[i] = &ast.EmptyStmt{Semicolon: old.Pos(), Implicit: true}
					return func() { (*list)[i] = old }
				})
			}
		}
	}
	ast.Inspect(f, func(n ast.Node) bool {
		switch x := n.(type) {
		case *ast.GenDecl:
			if x.Tok == token.IMPORT {
				return false
			}
		case *ast.BlockStmt:
			visitBlock(&x.List)
		case *ast.CaseClause:
			visitBlock(&x.Body)
		case *ast.BinaryExpr:
			if alts, ok := relAlt[x.Op]; ok {
				for _, alt := range alts {
					alt := alt
					add(x.OpPos, "rel", x.Op.String()+" -> "+alt.String(), func() func() {
						old := x.Op
						x.Op = alt
						return func() { x.Op = old }
					})
				}
			}
			switch x.Op {
			case token.LAND, token.LOR:
				alt := token.LOR
				if x.Op == token.LOR {
					alt = token.LAND
				}
				add(x.OpPos, "log", x.Op.String()+" -> "+alt.String(), func() func() {
					old := x.Op
					x.Op = alt
					return func() { x.Op = old }
				})
			case token.ADD, token.SUB:
				if bl, ok := x.Y.(*ast.BasicLit); ok && bl.Kind == token.STRING {
					break
				}
				if bl, ok := x.X.(*ast.BasicLit); ok && bl.Kind == token.STRING {
					break
				}
				alt := token.SUB
				if x.Op == token.SUB {
					alt = token.ADD
				}
				add(x.OpPos, "arith", x.Op.String()+" -> "+alt.String(), func() func() {
					old := x.Op
					x.Op = alt
					return func() { x.Op = old }
				})
			}
		case *ast.BasicLit:
			if x.Kind == token.INT {
				v, err := strconv.ParseInt(x.Value, 0, 64)
				if err == nil && v >= 0 && v <= 64 {
					for _, d := range []int64{1, -1} {
						nv := v + d
						if nv < 0 {
							continue
						}
						nvs := strconv.FormatInt(nv, 10)
						add(x.Pos(), "const", x.Value+" -> "+nvs, func() func() {
							old := x.Value
							x.Value = nvs
							return func() { x.Value = old }
						})
					}
				}
			}
		case *ast.Ident:
			if x.Name == "true" || x.Name == "false" {
				alt := "false"
				if x.Name == "false" {
					alt = "true"
				}
				add(x.Pos(), "bool", x.Name+" -> "+alt, func() func() {
					old := x.Name
					x.Name = alt
					return func() { x.Name = old }
				})
			}
		case *ast.IfStmt:
			add(x.Cond.Pos(), "neg", "condition negated", func() func() {
				old := x.Cond
				x.Cond = &ast.UnaryExpr{Op: token.NOT, X: &ast.ParenExpr{X: old}}
				return func() { x.Cond = old }
			})
		case *ast.CallExpr:
			for i := 0; i+1 < len(x.Args); i++ {
				i := i
				a, b := x.Args[i], x.Args[i+1]
				if fmt.Sprintf("%T", a) != fmt.Sprintf("%T", b) {
					continue
				}
				if _, isLit := a.(*ast.BasicLit); isLit {
					continue
				}
				add(a.Pos(), "swap", fmt.Sprintf("arguments %d and %d swapped", i, i+1), func() func() {
					x.Args[i], x.Args[i+1] = x.Args[i+1], x.Args[i]
					return func() { x.Args[i], x.Args[i+1] = x.Args[i+1], x.Args[i] }
				})
			}
		}
		return true
	})
	base := filepath.Base(src)
	for k, m := range muts {
		undo := m.apply()
		var buf bytes.Buffer
		if err := (&printer.Config{Mode: printer.UseSpaces | printer.TabIndent, Tabwidth: 8}).Fprint(&buf, fset, f); err != nil {
			undo()
			continue
		}
		undo()
		id := fmt.Sprintf("%s.%04d", base, k)
		if err := os.WriteFile(filepath.Join(out, id), buf.Bytes(), 0o644); err != nil {
			panic(err)
		}
		fmt.Printf("%s\t%d\t%s\t%s\n", id, m.line, m.op, m.desc)
	}
}
