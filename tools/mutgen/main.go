// mutgen: writes single-edit mutants of a Go source file, one file per
// mutant, for the mutation sweep (tools/mutsweep.sh). Operators:
//   rel   relational operator replaced by its boundary neighbour / negation
//   log   && <-> ||
//   arith + <-> -
//   const integer literal k -> k+1, k-1 (small k), 0 <-> 1
//   bool  true <-> false
//   neg   if cond -> if !(cond)
//   del   delete an assignment / inc-dec / expression statement
//   swap  swap two adjacent call arguments with identical source type hints (same kind of literal/ident)
//   ret   return true <-> return false
// usage: mutgen <file.go> <outdir>   (prints one line per mutant: id, line, operator, description)
package main

import (
	"bytes"
	"fmt"
	"go/ast"
	"go/parser"
	"go/printer"
	"go/token"
	"os"
	"path/filepath"
	"strconv"
	"strings"
)

type mut struct {
	apply func() func() // applies the edit, returns undo
	line  int
	op    string
	desc  string
}

func main() {
	wave2 := false
	if len(os.Args) > 1 && os.Args[1] == "-wave2" {
		wave2 = true
		os.Args = append(os.Args[:1], os.Args[2:]...)
	}
	src := os.Args[1]
	out := os.Args[2]
	fset := token.NewFileSet()
	f, err := parser.ParseFile(fset, src, nil, parser.ParseComments)
	if err != nil {
		panic(err)
	}
	var muts []mut
	wave2ops := map[string]bool{"field": true, "idx": true, "condc": true, "unot": true, "str": true, "retswap": true}
	add := func(pos token.Pos, op, desc string, apply func() func()) {
		if wave2 != wave2ops[op] {
			return
		}
		muts = append(muts, mut{apply, fset.Position(pos).Line, op, desc})
	}
	relAlt := map[token.Token][]token.Token{
		token.LSS: {token.LEQ, token.GEQ}, token.LEQ: {token.LSS, token.GTR}, token.GTR: {token.GEQ, token.LEQ}, token.GEQ: {token.GTR, token.LSS},
		token.EQL: {token.NEQ}, token.NEQ: {token.EQL},
	}
	// struct fields of the package by name -> sibling fields of identical type
	siblings := map[string][]string{}
	if wave2 {
		dir := filepath.Dir(src)
		pkgs, _ := parser.ParseDir(token.NewFileSet(), dir, func(fi os.FileInfo) bool { return !strings.HasSuffix(fi.Name(), "_test.go") }, 0)
		for _, p := range pkgs {
			for _, pf := range p.Files {
				ast.Inspect(pf, func(n ast.Node) bool {
					st, ok := n.(*ast.StructType)
					if !ok || st.Fields == nil {
						return true
					}
					type fld struct{ name, typ string }
					var fs []fld
					for _, f := range st.Fields.List {
						var b bytes.Buffer
						printer.Fprint(&b, token.NewFileSet(), f.Type)
						for _, n := range f.Names {
							fs = append(fs, fld{n.Name, b.String()})
						}
					}
					for _, a := range fs {
						for _, bb := range fs {
							if a.name != bb.name && a.typ == bb.typ {
								siblings[a.name] = append(siblings[a.name], bb.name)
							}
						}
					}
					return true
				})
			}
		}
	}
	var visitBlock func(list *[]ast.Stmt)
	visitBlock = func(list *[]ast.Stmt) {
		for i := range *list {
			i := i
			switch st := (*list)[i].(type) {
			case *ast.AssignStmt, *ast.IncDecStmt, *ast.ExprStmt:
				if as, ok := st.(*ast.AssignStmt); ok && as.Tok == token.DEFINE {
					continue // deleting a definition does not compile
				}
				add(st.Pos(), "del", "statement deleted", func() func() {
					old := (*list)[i]
					(*list)[i] = &ast.EmptyStmt{Semicolon: old.Pos(), Implicit: true}
					return func() { (*list)[i] = old }
				})
			}
		}
	}
	ast.Inspect(f, func(n ast.Node) bool {
		switch x := n.(type) {
		case *ast.GenDecl:
			if x.Tok == token.IMPORT {
				return false
			}
		case *ast.BlockStmt:
			visitBlock(&x.List)
		case *ast.CaseClause:
			visitBlock(&x.Body)
		case *ast.BinaryExpr:
			if alts, ok := relAlt[x.Op]; ok {
				for _, alt := range alts {
					alt := alt
					add(x.OpPos, "rel", x.Op.String()+" -> "+alt.String(), func() func() {
						old := x.Op
						x.Op = alt
						return func() { x.Op = old }
					})
				}
			}
			switch x.Op {
			case token.LAND, token.LOR:
				alt := token.LOR
				if x.Op == token.LOR {
					alt = token.LAND
				}
				add(x.OpPos, "log", x.Op.String()+" -> "+alt.String(), func() func() {
					old := x.Op
					x.Op = alt
					return func() { x.Op = old }
				})
			case token.ADD, token.SUB:
				if bl, ok := x.Y.(*ast.BasicLit); ok && bl.Kind == token.STRING {
					break
				}
				if bl, ok := x.X.(*ast.BasicLit); ok && bl.Kind == token.STRING {
					break
				}
				alt := token.SUB
				if x.Op == token.SUB {
					alt = token.ADD
				}
				add(x.OpPos, "arith", x.Op.String()+" -> "+alt.String(), func() func() {
					old := x.Op
					x.Op = alt
					return func() { x.Op = old }
				})
			}
		case *ast.BasicLit:
			if x.Kind == token.STRING && len(x.Value) >= 4 && (x.Value[0] == '"' || x.Value[0] == '`') {
				q := x.Value[:1]
				body := x.Value[1 : len(x.Value)-1]
				if !strings.HasSuffix(body, "\\") && len(body) >= 2 && body[len(body)-2] != '\\' {
					nv := q + body[:len(body)-1] + q
					add(x.Pos(), "str", "last character of the string dropped", func() func() {
						old := x.Value
						x.Value = nv
						return func() { x.Value = old }
					})
				}
			}
			if x.Kind == token.INT {
				v, err := strconv.ParseInt(x.Value, 0, 64)
				if err == nil && v >= 0 && v <= 64 {
					for _, d := range []int64{1, -1} {
						nv := v + d
						if nv < 0 {
							continue
						}
						nvs := strconv.FormatInt(nv, 10)
						add(x.Pos(), "const", x.Value+" -> "+nvs, func() func() {
							old := x.Value
							x.Value = nvs
							return func() { x.Value = old }
						})
					}
				}
			}
		case *ast.Ident:
			if x.Name == "true" || x.Name == "false" {
				alt := "false"
				if x.Name == "false" {
					alt = "true"
				}
				add(x.Pos(), "bool", x.Name+" -> "+alt, func() func() {
					old := x.Name
					x.Name = alt
					return func() { x.Name = old }
				})
			}
		case *ast.SelectorExpr:
			seen := map[string]bool{}
			for _, alt := range siblings[x.Sel.Name] {
				alt := alt
				if seen[alt] {
					continue
				}
				seen[alt] = true
				add(x.Sel.Pos(), "field", x.Sel.Name+" -> "+alt, func() func() {
					old := x.Sel.Name
					x.Sel.Name = alt
					return func() { x.Sel.Name = old }
				})
			}
		case *ast.IndexExpr:
			for _, d := range []struct {
				op  token.Token
				txt string
			}{{token.ADD, "+1"}, {token.SUB, "-1"}} {
				d := d
				add(x.Index.Pos(), "idx", "index "+d.txt, func() func() {
					old := x.Index
					x.Index = &ast.BinaryExpr{X: old, Op: d.op, Y: &ast.BasicLit{Kind: token.INT, Value: "1"}}
					return func() { x.Index = old }
				})
			}
		case *ast.SliceExpr:
			if x.Low != nil {
				add(x.Low.Pos(), "idx", "low bound +1", func() func() {
					old := x.Low
					x.Low = &ast.BinaryExpr{X: old, Op: token.ADD, Y: &ast.BasicLit{Kind: token.INT, Value: "1"}}
					return func() { x.Low = old }
				})
			}
			if x.High != nil {
				add(x.High.Pos(), "idx", "high bound -1", func() func() {
					old := x.High
					x.High = &ast.BinaryExpr{X: old, Op: token.SUB, Y: &ast.BasicLit{Kind: token.INT, Value: "1"}}
					return func() { x.High = old }
				})
			}
		case *ast.UnaryExpr:
			if x.Op == token.NOT {
				add(x.OpPos, "unot", "'!' removed", func() func() {
					old := x.Op
					x.Op = token.ADD
					// +bool does not compile: wrap instead by replacing X with !!X is no change; use paren trick
					x.Op = old
					inner := x.X
					x.X = &ast.UnaryExpr{Op: token.NOT, X: inner}
					return func() { x.X = inner }
				})
			}
		case *ast.ReturnStmt:
			if len(x.Results) == 2 {
				add(x.Pos(), "retswap", "results swapped", func() func() {
					x.Results[0], x.Results[1] = x.Results[1], x.Results[0]
					return func() { x.Results[0], x.Results[1] = x.Results[1], x.Results[0] }
				})
			}
		case *ast.IfStmt:
			for _, cv := range []string{"true", "false"} {
				cv := cv
				add(x.Cond.Pos(), "condc", "condition replaced by "+cv, func() func() {
					old := x.Cond
					x.Cond = &ast.Ident{Name: cv}
					return func() { x.Cond = old }
				})
			}
			add(x.Cond.Pos(), "neg", "condition negated", func() func() {
				old := x.Cond
				x.Cond = &ast.UnaryExpr{Op: token.NOT, X: &ast.ParenExpr{X: old}}
				return func() { x.Cond = old }
			})
		case *ast.CallExpr:
			for i := 0; i+1 < len(x.Args); i++ {
				i := i
				a, b := x.Args[i], x.Args[i+1]
				if fmt.Sprintf("%T", a) != fmt.Sprintf("%T", b) {
					continue
				}
				if _, isLit := a.(*ast.BasicLit); isLit {
					continue
				}
				add(a.Pos(), "swap", fmt.Sprintf("arguments %d and %d swapped", i, i+1), func() func() {
					x.Args[i], x.Args[i+1] = x.Args[i+1], x.Args[i]
					return func() { x.Args[i], x.Args[i+1] = x.Args[i+1], x.Args[i] }
				})
			}
		}
		return true
	})
	base := filepath.Base(src)
	for k, m := range muts {
		undo := m.apply()
		var buf bytes.Buffer
		if err := (&printer.Config{Mode: printer.UseSpaces | printer.TabIndent, Tabwidth: 8}).Fprint(&buf, fset, f); err != nil {
			undo()
			continue
		}
		undo()
		id := fmt.Sprintf("%s.%04d", base, k)
		if err := os.WriteFile(filepath.Join(out, id), buf.Bytes(), 0o644); err != nil {
			panic(err)
		}
		fmt.Printf("%s\t%d\t%s\t%s\n", id, m.line, m.op, m.desc)
	}
}
