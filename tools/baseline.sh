#!/bin/bash
# Runs the repository's pinned test suite (guard off; there are no hooks) on a
# tree (default /repo) and compares with /root/.vp/BASELINE.json stable_pass.
# usage: tools/baseline.sh [repo-dir]
REPO=${1:-/repo}
export GOFLAGS=-mod=mod GOPROXY=off GOSUMDB=off GOTOOLCHAIN=local
unset GOWORK
cd "$REPO" || exit 2
go test -json -vet=off -count=1 -timeout 25m ./... 2>/dev/null | python3 -c '
import json,sys
base=set(json.load(open("/root/.vp/BASELINE.json"))["stable_pass"])
res={}
for l in sys.stdin:
    try: e=json.loads(l)
    except Exception: continue
    if e.get("Test") and e.get("Action") in ("pass","fail","skip"):
        res[e["Package"]+"::"+e["Test"]]=e["Action"]
passed={k for k,v in res.items() if v=="pass"}
missing=sorted(base-passed)
print("baseline stable_pass=%d passed_now=%d missing=%d"%(len(base),len(passed&base),len(missing)))
for m in missing: print("  MISSING",m,res.get(m))
sys.exit(1 if missing else 0)
'
