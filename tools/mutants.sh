#!/bin/bash
# Checker self-test: every variant under /verif/mutants must be reported by the
# named rule of the named property (kind=break) or leave the named properties
# silent (kind=benign). Variants are applied to a scratch copy of /repo.
# usage: tools/mutants.sh [name...]
cd "$(dirname "$0")/.." || exit 2
export GOFLAGS=-mod=mod GOPROXY=off GOSUMDB=off GOTOOLCHAIN=local
NAMES="$@"; [ -z "$NAMES" ] && NAMES=$(ls mutants)
fail=0
for n in $NAMES; do
  meta=mutants/$n/meta.json
  kind=$(python3 -c "import json;print(json.load(open('$meta'))['kind'])")
  props=$(python3 -c "import json;print(json.load(open('$meta'))['prop'])")
  rule=$(python3 -c "import json;print(json.load(open('$meta'))['rule'])")
  S=$(mktemp -d /dev/shm/ppmutant.XXXXXX)
  git -C /repo archive --format=tar HEAD | tar -x -C "$S"
  (cd "$S" && git init -q . && git apply --whitespace=nowarn "$OLDPWD/mutants/$n/patch.diff") || { echo "PATCH-FAILS $n"; fail=1; rm -rf "$S"; continue; }
  for p in $props; do
    out=$(bin/ppcheck -repo "$S" -verif "$(pwd)" -p "$p" -no-evidence 2>&1)
    viol=$(echo "$out" | grep -E '^(VIOLATED|UNDECIDED)' | sed -E 's/.*rule=([^ ]+) key=([^ ]+).*/\1/' | sort -u | tr '\n' ',')
    if [ "$kind" = break ]; then
      pat=$(echo "$rule" | sed 's/\*/.*/')
      if echo ",$viol" | grep -qE ",$pat,"; then echo "ok      $n $p [$viol]"; else echo "MISSED  $n $p expected=$rule got=[$viol]"; fail=1; fi
    else
      if [ -z "$viol" ]; then echo "ok      $n $p silent"; else echo "ALARM   $n $p [$viol] $(echo "$out" | grep -E '^(VIOLATED|UNDECIDED)' | head -2 | cut -c1-300)"; fail=1; fi
    fi
  done
  rm -rf "$S"
done
exit $fail
