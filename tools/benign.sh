#!/bin/bash
# Runs every claimed check (one process, -p all) against behaviour-preserving
# variants: each <dir>/patch.diff is applied to a scratch copy of /repo (never
# to /repo); any VIOLATED/UNDECIDED line is a false alarm to be examined.
# usage: tools/benign.sh <dir-with-patch.diff>...
cd "$(dirname "$0")/.." || exit 2
export GOFLAGS=-mod=mod GOPROXY=off GOSUMDB=off GOTOOLCHAIN=local
rc=0
for d in "$@"; do
  P=$(readlink -f "$d")/patch.diff
  S=$(mktemp -d /dev/shm/ppbenign.XXXXXX)
  git -C /repo archive --format=tar HEAD | tar -x -C "$S"
  (cd "$S" && git init -q . && git apply --whitespace=nowarn "$P") || { echo "$d PATCH-FAILS"; rm -rf "$S"; continue; }
  out=$(${PPBIN:-bin/ppcheck} -repo "$S" -verif "$(pwd)" -p all -no-evidence 2>&1)
  al=$(echo "$out" | grep -E '^(VIOLATED|UNDECIDED)' | sed "s|$S/||g")
  if [ -z "$al" ]; then echo "silent  $d"; else rc=1; echo "ALARM   $d"; echo "$al" | cut -c1-${CUT:-400} | sed 's/^/        /' | head -${N:-12}; fi
  rm -rf "$S"
done
exit $rc
