#!/bin/bash
# Runs the registered checks against every seeded change in /verif/seeded/*/
# (each applied to a scratch copy of /repo, never to /repo) and prints a
# detection matrix: the property the change was written to break, and any
# other claimed property that also reports it.
# usage: tools/seeds.sh [all|own] [seed-id...]
cd "$(dirname "$0")/.." || exit 2
MODE=${1:-own}; shift
IDS="$@"; [ -z "$IDS" ] && IDS=$(ls seeded | grep -E '^C[0-9]+-')
CLAIMED=$(python3 -c "import json;print(' '.join(c['property_id'] for c in json.load(open('MANIFEST.json'))['checks']))")
export GOFLAGS=-mod=mod GOPROXY=off GOSUMDB=off GOTOOLCHAIN=local
for id in $IDS; do
  prop=$(python3 -c "import json;print(json.load(open('seeded/$id/meta.json'))['breaks_property'])")
  S=$(mktemp -d /dev/shm/ppseed.XXXXXX)
  git -C /repo archive --format=tar HEAD | tar -x -C "$S"
  (cd "$S" && git init -q . && git apply --whitespace=nowarn "$OLDPWD/seeded/$id/patch.diff") || { echo "$id PATCH-FAILS"; rm -rf "$S"; continue; }
  props=$prop; [ "$MODE" = all ] && props=$CLAIMED
  det=""; own="not-claimed"
  for p in $props; do
    echo " $CLAIMED " | grep -q " $p " || continue
    out=$(bin/ppcheck -repo "$S" -verif "$(pwd)" -p "$p" -no-evidence 2>&1)
    if echo "$out" | grep -q "^VIOLATION property=$p"; then
      rules=$(echo "$out" | grep -E '^(VIOLATED|UNDECIDED)' | sed -E 's/.*rule=([^ ]+) key=([^ ]+).*/\1/' | sort -u | tr '\n' ',' | sed 's/,$//')
      det="$det $p[$rules]"
      [ "$p" = "$prop" ] && own="DETECTED"
    else
      [ "$p" = "$prop" ] && own="MISSED"
    fi
  done
  echo "$id breaks=$prop own=$own by:$det"
  rm -rf "$S"
done
