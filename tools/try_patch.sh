#!/bin/bash
# usage: tools/try_patch.sh <patch.diff> <property-id>...
# Applies a patch to a scratch copy of /repo (never to /repo itself), runs the
# checks of the given properties on it and prints what they report.
set -u
PATCH=$(readlink -f "$1"); shift
V=$(cd "$(dirname "$0")/.." && pwd)
S=$(mktemp -d /dev/shm/ppmut.XXXXXX)
trap 'rm -rf "$S"' EXIT
git -C /repo archive --format=tar HEAD | tar -x -C "$S" || exit 2
(cd "$S" && git init -q . && git apply --whitespace=nowarn "$PATCH") || { echo "PATCH-DOES-NOT-APPLY $PATCH"; exit 2; }
export GOFLAGS=-mod=mod GOPROXY=off GOSUMDB=off GOTOOLCHAIN=local
rc=0
for p in "$@"; do
  out=$("$V/bin/ppcheck" -repo "$S" -verif "$V" -p "$p" -no-evidence 2>&1)
  if echo "$out" | grep -q "^VIOLATION property=$p"; then
    echo "DETECTED $p: $(echo "$out" | grep -E '^(VIOLATED|UNDECIDED)' | sed "s|$S/||g" | cut -c1-${CUT:-330} | head -${N:-4})"
  else
    echo "MISSED   $p: $(echo "$out" | tail -1 | cut -c1-200)"
    rc=1
  fi
done
exit $rc
