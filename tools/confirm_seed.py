#!/usr/bin/env python3
"""Confirms a seeded change in a scratch worktree of /repo (never in /repo):
 - the demonstration passes on the clean tree and fails with the change,
 - the change builds and the pinned baseline suite still passes with it.
usage: confirm_seed.py <dir with patch.diff, demo/, meta.json> <id>   -> writes /verif/seeded/<id>/
"""
import json, os, re, shutil, subprocess, sys, tempfile, glob
src, sid = sys.argv[1].rstrip('/'), sys.argv[2]
env = dict(os.environ, GOFLAGS='-mod=mod', GOPROXY='off', GOSUMDB='off', GOTOOLCHAIN='local')
env.pop('GOWORK', None)
wt = tempfile.mkdtemp(prefix='vw.', dir='/tmp')
os.rmdir(wt)
def run(cmd, cwd=None, timeout=900):
    p = subprocess.run(cmd, shell=True, cwd=cwd, env=env, stdout=subprocess.PIPE, stderr=subprocess.STDOUT, text=True, timeout=timeout)
    return p.returncode, p.stdout
ran = []
ok = True
try:
    rc, out = run(f'git -C /repo worktree add -q --detach {wt} HEAD')
    assert rc == 0, out
    demos = [f for f in glob.glob(src + '/demo/*_test.go')]
    placed = []
    pkgs = set()
    for d in demos:
        pk = re.search(r'^package\s+(\w+)', open(d).read(), re.M).group(1)
        sub = {'stack': 'stack', 'stack_test': 'stack', 'internal': 'internal', 'webstack': 'stack/webstack', 'webstack_test': 'stack/webstack', 'main': '.'}[pk]
        dst = os.path.join(wt, sub, os.path.basename(d))
        shutil.copy(d, dst); placed.append(dst); pkgs.add('./' + sub + '/')
    for extra in glob.glob(src + '/demo/*'):
        if not extra.endswith('_test.go') and not extra.endswith('RUN.md'):
            for p in pkgs:
                shutil.copy(extra, os.path.join(wt, p))
                placed.append(os.path.join(wt, p, os.path.basename(extra)))
    tests = set()
    for d in demos:
        tests |= set(re.findall(r'^func (Test\w+)\(', open(d).read(), re.M))
    runre = '^(' + '|'.join(sorted(tests)) + ')$'
    pk = ' '.join(sorted(pkgs))
    def demo(race=False):
        return run(f"go test -vet=off -count=1 {'-race' if race else ''} -run '{runre}' {pk}", cwd=wt)
    rc, out = demo()
    ran.append(f"clean tree: go test -run '{runre}' {pk} -> rc={rc}")
    if rc != 0: ok = False; print('DEMO FAILS ON CLEAN TREE\n' + out[-1500:])
    rc, out = run(f'git apply --whitespace=nowarn {src}/patch.diff', cwd=wt)
    assert rc == 0, 'patch does not apply: ' + out
    rc, out = run('go build ./...', cwd=wt)
    ran.append(f'with change: go build ./... -> rc={rc}')
    if rc != 0: ok = False; print('BUILD FAILS\n' + out[-800:])
    rc, out = demo()
    race = False
    if rc == 0:
        rc, out = demo(race=True); race = True
    ran.append(f"with change: demonstration{' (-race)' if race else ''} -> rc={rc} (must fail)")
    if rc == 0: ok = False; print('DEMO PASSES WITH THE CHANGE')
    fail_excerpt = '\n'.join([l for l in out.splitlines() if 'FAIL' in l or 'zz_seed' in l or 'DATA RACE' in l][:6])
    if race:
        # the race demo must pass on the clean tree under -race as well
        run('git checkout -q -- . ', cwd=wt)
        rc2, out2 = demo(race=True)
        ran.append(f'clean tree: demonstration (-race) -> rc={rc2}')
        if rc2 != 0: ok = False; print('RACE DEMO FAILS ON CLEAN TREE')
        run(f'git apply --whitespace=nowarn {src}/patch.diff', cwd=wt)
    for p in placed:
        os.remove(p)
    rc, out = run(f'/verif/tools/baseline.sh {wt}')
    ran.append('with change: tools/baseline.sh (pinned suite, 220 tests) -> ' + out.strip().splitlines()[0])
    if rc != 0: ok = False; print('BASELINE BROKEN\n' + out[-1500:])
finally:
    run(f'git -C /repo worktree remove --force {wt}')
    shutil.rmtree(wt, ignore_errors=True)
print(sid, 'CONFIRMED' if ok else 'REJECTED')
for r in ran: print('   ', r)
if ok:
    dst = f'/verif/seeded/{sid}'
    shutil.rmtree(dst, ignore_errors=True)
    os.makedirs(dst)
    shutil.copy(src + '/patch.diff', dst)
    shutil.copytree(src + '/demo', dst + '/demo')
    meta = json.load(open(src + '/meta.json'))
    out = {'id': sid, 'breaks_property': meta.get('property'), 'summary': meta.get('summary'), 'mechanism': meta.get('mechanism'),
           'needs_to_manifest': meta.get('needs'), 'files': meta.get('files'), 'origin': 'independent sub-agent given only the property text and a scratch worktree',
           'confirmed_by_me': ran, 'demo_failure_excerpt': fail_excerpt}
    json.dump(out, open(dst + '/meta.json', 'w'), indent=1)
sys.exit(0 if ok else 1)
