#!/bin/bash
# Confirms that a stored behaviour-preserving variant builds and keeps the
# pinned suite green, in a scratch worktree of /repo (never in /repo).
# usage: tools/confirm_benign.sh <benign-id>...
export GOFLAGS=-mod=mod GOPROXY=off GOSUMDB=off GOTOOLCHAIN=local
V=$(cd "$(dirname "$0")/.." && pwd)
for id in "$@"; do
  W=$(mktemp -d /tmp/vwb.XXXXXX); rmdir "$W"
  git -C /repo worktree add -q --detach "$W" HEAD || { echo "$id WORKTREE-FAILS"; continue; }
  if ! (cd "$W" && git apply --whitespace=nowarn "$V/benign/$id/patch.diff"); then echo "$id PATCH-FAILS"; else
    if ! (cd "$W" && go build ./... 2>&1 | tail -3); then echo "$id BUILD-FAILS"; fi
    res=$("$V/tools/baseline.sh" "$W" | head -1)
    echo "$id $res"
  fi
  git -C /repo worktree remove --force "$W"; rm -rf "$W"
done
